/-
  C01 (whole messages) — the decoder model of DnsModel/MsgUnpack.lean reads back what the plain (uncompressed) encoding
  of a message says: for every record type of the generated table and all fitting field values.  The codec algebra's
  round trip (C01Codec) is lifted from RDATA slices to offsets inside a message, then through record headers,
  sections and the message header.
-/
import DnsModel.MsgUnpack
import DnsProofs.C01Codec
import DnsProofs.Instance.Codecs
import DnsProofs.C01Hdr
namespace Dns.C01M
open Dns Dns.MU Dns.C01 Dns.C03

/-- a name in wire form anywhere in a message decodes to the library's spelling and ends behind its last octet -/
theorem unpackName_ctx (ls : List Bytes) (pre rest : Bytes) (h : WireNameOK ls) :
    unpackName (pre ++ wireOf ls ++ rest) pre.length = .ok (presentOf ls, pre.length + (wireOf ls).length) := by
  obtain ⟨hl, hlen⟩ := h
  have := unpackLoop_wire ls pre rest [] Gen.maxDomainNameWireOctets 0 hl
    (by rw [wireOf_eq] at hlen; simp at hlen; simp [Gen.maxDomainNameWireOctets]; omega)
  unfold unpackName
  rw [wireOf_eq]
  simp only [List.append_assoc, List.singleton_append, List.length_append, List.length_singleton]
  simp only [List.append_assoc] at this
  rw [this]
  cases ls with
  | nil => simp [presentOf, presentLabels, wireLabels]
  | cons l ls =>
    have hl0 := hl l (by simp)
    match l, hl0 with
    | b :: l', _ =>
      have := presentByte_ne_nil b
      have hne : presentLabels ((b :: l') :: ls) ≠ [] := by
        intro e
        have : (presentLabels ((b :: l') :: ls)).length = 0 := by rw [e]; rfl
        simp [presentLabels, presentLabel] at this
      simp [presentOf_eq, hne]
      omega

/-- self-delimiting steps inside a message -/
theorem stepM_roundtrip (vals : List Val) (s : CStep) (v : Val) (hs : selfDelim s = true) (hw : WFStep vals s v) :
    ∃ w, packStep vals s v = some w ∧
      ∀ pre rest : Bytes, unpackStepM vals s (pre ++ w ++ rest) pre.length = some (v, pre.length + w.length) := by
  have slice : ∀ (w pre rest : Bytes), unpackStep vals s (w ++ rest) = some (v, rest) →
      (unpackStep vals s ((pre ++ w ++ rest).drop pre.length)).map (fun p => (p.1, (pre ++ w ++ rest).length - p.2.length)) =
        some (v, pre.length + w.length) := by
    intro w pre rest h
    have : (pre ++ w ++ rest).drop pre.length = w ++ rest := by
      rw [List.append_assoc, List.drop_left']; rfl
    rw [this, h]
    simp only [Option.map_some, List.length_append, Option.some.injEq, Prod.mk.injEq, true_and]
    omega
  by_cases hn : s = .name
  · subst hn
    cases v <;> simp only [WFStep] at hw
    rename_i text
    obtain ⟨ls, hok, rfl⟩ := hw
    refine ⟨wireOf ls, by simp [packStep, pack_present ls hok], fun pre rest => ?_⟩
    simp only [unpackStepM, unpackName_ctx ls pre rest hok]
  · by_cases hgw : ∃ i m, s = .gateway i m
    · obtain ⟨i, m, rfl⟩ := hgw
      by_cases h3 : gatewayType vals i m = 3
      · simp only [WFStep, h3] at hw
        cases v <;> simp only at hw
        rename_i text
        obtain ⟨ls, hok, rfl⟩ := hw
        refine ⟨wireOf ls, by simp [packStep, h3, pack_present ls hok], fun pre rest => ?_⟩
        simp only [unpackStepM, h3, ↓reduceIte, unpackName_ctx ls pre rest hok]
      · obtain ⟨w, h1, h2⟩ := step_roundtrip vals (.gateway i m) v [] hs hw
        obtain ⟨w, h1, _⟩ := step_roundtrip vals (.gateway i m) v [] hs hw
        refine ⟨w, h1, fun pre rest => ?_⟩
        obtain ⟨w', h1', h2'⟩ := step_roundtrip vals (.gateway i m) v rest hs hw
        have : w' = w := by rw [h1] at h1'; exact (Option.some.inj h1').symm
        subst this
        simp only [unpackStepM, h3, ↓reduceIte]
        exact slice w' pre rest h2'
    · obtain ⟨w, h1, _⟩ := step_roundtrip vals s v [] hs hw
      refine ⟨w, h1, fun pre rest => ?_⟩
      obtain ⟨w', h1', h2'⟩ := step_roundtrip vals s v rest hs hw
      have : w' = w := by rw [h1] at h1'; exact (Option.some.inj h1').symm
      subst this
      have := slice w' pre rest h2'
      cases s <;> first
        | exact absurd rfl hn
        | exact absurd ⟨_, _, rfl⟩ hgw
        | (simp [selfDelim] at hs; done)
        | (simp only [unpackStepM]; exact this)

/-- a list of names up to the end of the message -/
theorem namesM_roundtrip (texts : List Bytes) (h : ∀ t ∈ texts, ∃ ls, WireNameOK ls ∧ t = presentOf ls) :
    ∃ w, packNames texts = some w ∧
      ∀ (pre : Bytes) (fuel : Nat), w.length < fuel → unpackNamesM fuel (pre ++ w) pre.length = some texts := by
  induction texts with
  | nil =>
    refine ⟨[], rfl, fun pre fuel hf => ?_⟩
    cases fuel with
    | zero => omega
    | succ f => simp [unpackNamesM]
  | cons t rest ih =>
    obtain ⟨ls, hok, rfl⟩ := h t (by simp)
    obtain ⟨w, hw, hu⟩ := ih (fun x hx => h x (by simp [hx]))
    refine ⟨wireOf ls ++ w, by simp [packNames, pack_present ls hok, hw], fun pre fuel hf => ?_⟩
    cases fuel with
    | zero => omega
    | succ f =>
      have hpos := wireOf_ne_nil ls
      have hlen : 0 < (wireOf ls).length := hpos
      simp only [unpackNamesM]
      have hnot : ¬ (pre ++ (wireOf ls ++ w)).length ≤ pre.length := by simp; omega
      rw [if_neg hnot]
      have e := unpackName_ctx ls pre w hok
      rw [List.append_assoc] at e
      rw [e]
      simp only
      have := hu (pre ++ wireOf ls) f (by simp at hf; omega)
      simp only [List.length_append, List.append_assoc] at this
      rw [this]
      rfl

/-- rest-consuming steps at the end of a message cut at the end of the RDATA -/
theorem lastM_roundtrip (vals : List Val) (s : CStep) (v : Val) (hs : restStep s = true) (hw : WFStep vals s v) :
    ∃ w, packStep vals s v = some w ∧
      ∀ pre : Bytes, unpackStepM vals s (pre ++ w) pre.length = some (v, (pre ++ w).length) := by
  by_cases hn : s = .names
  · subst hn
    cases v <;> simp only [WFStep] at hw
    rename_i texts
    obtain ⟨w, h1, h2⟩ := namesM_roundtrip texts hw
    refine ⟨w, h1, fun pre => ?_⟩
    simp only [unpackStepM]
    rw [h2 pre ((pre ++ w).length + 1) (by simp; omega)]
    simp
  · obtain ⟨w, h1, h2⟩ := last_roundtrip vals s v hs hw
    refine ⟨w, h1, fun pre => ?_⟩
    have hd : (pre ++ w).drop pre.length = w := by rw [List.drop_left']; rfl
    cases s <;> first
      | exact absurd rfl hn
      | (simp [restStep] at hs; done)
      | (simp only [unpackStepM, hd, h2]; simp)

/-- **bodies inside a message**: for every covered unpack body and all fitting field values, reading the packed body at
    its place behind any prefix returns exactly the values and ends at the end -/
theorem planM_roundtrip (acc : List Val) (U : List CStep) (vals : List Val) (hg : GoodPlan U = true)
    (hw : WFPlan acc U vals) :
    ∃ w, packPlanAcc acc (stripPlan U) vals = some w ∧
      ∀ pre : Bytes, unpackPlanM U (pre ++ w) pre.length acc = some (acc ++ vals, (pre ++ w).length) := by
  induction U generalizing acc vals with
  | nil =>
    cases vals with
    | nil => exact ⟨[], rfl, fun pre => by simp [unpackPlanM]⟩
    | cons _ _ => simp [WFPlan] at hw
  | cons s U ih =>
    by_cases hse : s = .early
    · subst hse
      obtain ⟨w, h1, h2⟩ := ih acc vals hg (by simpa [WFPlan] using hw)
      refine ⟨w, by simpa [stripPlan, packPlanAcc] using h1, fun pre => ?_⟩
      simp only [unpackPlanM]
      by_cases he : w = []
      · subst he
        simp only [List.append_nil, ↓reduceIte]
        rw [zeros_of_empty acc U vals hg (by simpa [WFPlan] using hw) h1]
      · have : ¬ pre.length = (pre ++ w).length := by
          have := List.length_pos_iff.mpr he
          simp; omega
        rw [if_neg this]; exact h2 pre
    · cases vals with
      | nil => exact (wf_cons_nil acc s U hse hw).elim
      | cons v vals =>
        obtain ⟨hw1, hw2⟩ := wf_cons acc s U v vals hse hw
        have hpack : ∀ a r, packStep acc s v = some a → packPlanAcc (acc ++ [v]) (stripPlan U) vals = some r →
            packPlanAcc acc (stripPlan (s :: U)) (v :: vals) = some (a ++ r) := by
          intro a r ha hr
          rw [strip_cons s U hse]
          cases s <;> first
            | exact absurd rfl hse
            | (simp [packPlanAcc, ha, hr]; done)
            | (simp only [packPlanAcc]; rw [← packStep_blobSized, ha, hr])
        by_cases hsd : selfDelim s = true
        · have hg' : GoodPlan U = true := by rw [← good_cons_self s U hse hsd]; exact hg
          obtain ⟨w', h1, h2⟩ := ih (acc ++ [v]) vals hg' hw2
          obtain ⟨a, ha, hu⟩ := stepM_roundtrip acc s v hsd hw1
          refine ⟨a ++ w', hpack a w' ha h1, fun pre => ?_⟩
          have hstep := hu pre w'
          have : unpackPlanM (s :: U) (pre ++ (a ++ w')) pre.length acc =
              unpackPlanM U (pre ++ a ++ w') (pre.length + a.length) (acc ++ [v]) := by
            rw [← List.append_assoc]
            cases s <;> first | exact absurd rfl hse | simp only [unpackPlanM, hstep]
          rw [this]
          have := h2 (pre ++ a)
          simp only [List.length_append] at this
          rw [this]
          simp [List.append_assoc]
          omega
        · obtain ⟨hlast, hall⟩ := good_cons_last s U hse hsd hg
          have hv := wf_all_early (acc ++ [v]) U vals hall hw2
          subst hv
          obtain ⟨a, ha, hu⟩ := lastM_roundtrip acc s v hlast hw1
          have hr : packPlanAcc (acc ++ [v]) (stripPlan U) [] = some [] := by rw [(strip_all_early U hall).1]; rfl
          refine ⟨a, by have := hpack a [] ha hr; simpa using this, fun pre => ?_⟩
          have hrest : ∀ (V : List CStep) (acc' : List Val) (m : Bytes), V.all (· == .early) = true →
              unpackPlanM V m m.length acc' = some (acc', m.length) := by
            intro V
            induction V with
            | nil => intro acc' m _; simp [unpackPlanM]
            | cons x V ihV =>
              intro acc' m hV
              simp only [List.all_cons, Bool.and_eq_true, beq_iff_eq] at hV
              obtain ⟨rfl, hV2⟩ := hV
              simp [unpackPlanM, (strip_all_early V hV2).2]
          have : unpackPlanM (s :: U) (pre ++ a) pre.length acc = unpackPlanM U (pre ++ a) (pre ++ a).length (acc ++ [v]) := by
            cases s <;> first | exact absurd rfl hse | (simp [restStep] at hlast; done) | simp only [unpackPlanM, hu pre]
          rw [this, hrest U _ _ hall]

/-! ### records -/

theorem uintAt_ctx (w v : Nat) (pre rest : Bytes) (hv : v < 256 ^ w) :
    uintAt w (pre ++ beBytes w v ++ rest) pre.length = some (v, pre.length + w) := by
  unfold uintAt
  have hl : pre.length + w ≤ (pre ++ beBytes w v ++ rest).length := by simp [beBytes_len]
  rw [if_pos hl]
  have : ((pre ++ beBytes w v ++ rest).drop pre.length).take w = beBytes w v := by
    rw [List.append_assoc, List.drop_left']
    · rw [List.take_append_of_le_length (by rw [beBytes_len]; omega), List.take_of_length_le (by rw [beBytes_len]; omega)]
    · rfl
  rw [this, beVal_beBytes w v hv]

theorem encodeRR_length (owner : Bytes) (typ cls ttl : Nat) (rd : Bytes) :
    (encodeRR owner typ cls ttl rd).length = owner.length + 10 + rd.length := by
  simp [encodeRR, beBytes_len]; omega

/-- a record as the specification sees it: owner labels, header fields, the Go type and its field values -/
structure RRSpec where
  labels : List Bytes
  typ : Nat
  cls : Nat
  ttl : Nat
  kind : String
  vals : List Val

/-- what the decoder is to deliver for it -/
def RRSpec.decoded (r : RRSpec) (rdlen : Nat) : RRm :=
  ⟨presentOf r.labels, r.typ, r.cls, r.ttl, rdlen, r.kind, some r.vals⟩

structure RRSpec.WF (r : RRSpec) (U : List CStep) (rd : Bytes) : Prop where
  owner : WireNameOK r.labels
  typ : r.typ < 65536
  cls : r.cls < 65536
  ttl : r.ttl < 4294967296
  kind : kindOf r.typ = r.kind
  plan : Gen.unpackCodecs.lookup r.kind = some U
  good : GoodPlan U = true
  fits : WFPlan [] U r.vals
  values : r.vals.all (valueOK r.kind) = true
  packs : packPlan (stripPlan U) r.vals = some rd
  nonempty : 0 < rd.length
  short : rd.length < 65536

/-- **one record inside a message** -/
theorem rr_roundtrip (r : RRSpec) (U : List CStep) (rd : Bytes) (h : r.WF U rd) (pre rest : Bytes) :
    unpackRR (pre ++ encodeRR (wireOf r.labels) r.typ r.cls r.ttl rd ++ rest) pre.length =
      some (r.decoded rd.length, pre.length + (encodeRR (wireOf r.labels) r.typ r.cls r.ttl rd).length) := by
  obtain ⟨w, hp, hu⟩ := planM_roundtrip [] U r.vals h.good h.fits
  have hw : w = rd := by
    have := h.packs; unfold packPlan at this; rw [hp] at this; exact Option.some.inj this
  subst hw
  have hlen := encodeRR_length (wireOf r.labels) r.typ r.cls r.ttl w
  unfold unpackRR
  have hne : ¬ pre.length = (pre ++ encodeRR (wireOf r.labels) r.typ r.cls r.ttl w ++ rest).length := by
    simp only [List.length_append]; omega
  rw [if_neg hne]
  -- owner
  have e0 : pre ++ encodeRR (wireOf r.labels) r.typ r.cls r.ttl w ++ rest =
      pre ++ wireOf r.labels ++ (beBytes 2 r.typ ++ (beBytes 2 r.cls ++ (beBytes 4 r.ttl ++ (beBytes 2 w.length ++ w))) ++ rest) := by
    simp [encodeRR, List.append_assoc]
  have hn := unpackName_ctx r.labels pre
    (beBytes 2 r.typ ++ (beBytes 2 r.cls ++ (beBytes 4 r.ttl ++ (beBytes 2 w.length ++ w))) ++ rest) h.owner
  rw [← e0] at hn
  rw [hn]
  simp only
  -- the fixed header
  have e1 : pre ++ encodeRR (wireOf r.labels) r.typ r.cls r.ttl w ++ rest =
      (pre ++ wireOf r.labels) ++ beBytes 2 r.typ ++ (beBytes 2 r.cls ++ (beBytes 4 r.ttl ++ (beBytes 2 w.length ++ w)) ++ rest) := by
    simp [encodeRR, List.append_assoc]
  have u1 := uintAt_ctx 2 r.typ (pre ++ wireOf r.labels) (beBytes 2 r.cls ++ (beBytes 4 r.ttl ++ (beBytes 2 w.length ++ w)) ++ rest)
    (by have := h.typ; omega)
  rw [← e1, List.length_append] at u1
  rw [u1]
  simp only
  have e2 : pre ++ encodeRR (wireOf r.labels) r.typ r.cls r.ttl w ++ rest =
      (pre ++ wireOf r.labels ++ beBytes 2 r.typ) ++ beBytes 2 r.cls ++ (beBytes 4 r.ttl ++ (beBytes 2 w.length ++ w) ++ rest) := by
    simp [encodeRR, List.append_assoc]
  have u2 := uintAt_ctx 2 r.cls (pre ++ wireOf r.labels ++ beBytes 2 r.typ) (beBytes 4 r.ttl ++ (beBytes 2 w.length ++ w) ++ rest)
    (by have := h.cls; omega)
  rw [← e2] at u2
  simp only [List.length_append, beBytes_len] at u2
  rw [u2]
  simp only
  have e3 : pre ++ encodeRR (wireOf r.labels) r.typ r.cls r.ttl w ++ rest =
      (pre ++ wireOf r.labels ++ beBytes 2 r.typ ++ beBytes 2 r.cls) ++ beBytes 4 r.ttl ++ (beBytes 2 w.length ++ w ++ rest) := by
    simp [encodeRR, List.append_assoc]
  have u3 := uintAt_ctx 4 r.ttl (pre ++ wireOf r.labels ++ beBytes 2 r.typ ++ beBytes 2 r.cls) (beBytes 2 w.length ++ w ++ rest)
    (by have := h.ttl; omega)
  rw [← e3] at u3
  simp only [List.length_append, beBytes_len] at u3
  rw [u3]
  simp only
  have e4 : pre ++ encodeRR (wireOf r.labels) r.typ r.cls r.ttl w ++ rest =
      (pre ++ wireOf r.labels ++ beBytes 2 r.typ ++ beBytes 2 r.cls ++ beBytes 4 r.ttl) ++ beBytes 2 w.length ++ (w ++ rest) := by
    simp [encodeRR, List.append_assoc]
  have u4 := uintAt_ctx 2 w.length (pre ++ wireOf r.labels ++ beBytes 2 r.typ ++ beBytes 2 r.cls ++ beBytes 4 r.ttl) (w ++ rest)
    (by have := h.short; omega)
  rw [← e4] at u4
  simp only [List.length_append, beBytes_len] at u4
  rw [u4]
  simp only
  -- RDLENGTH framing
  have hfit : ¬ (pre ++ encodeRR (wireOf r.labels) r.typ r.cls r.ttl w ++ rest).length <
      pre.length + (wireOf r.labels).length + 2 + 2 + 4 + 2 + w.length := by
    simp only [List.length_append]; omega
  rw [if_neg hfit]
  have hnz : ¬ w.length = 0 := by have := h.nonempty; omega
  rw [if_neg hnz, h.kind, h.plan]
  simp only
  -- the body, in the message cut at the end of the RDATA
  have ecut : (pre ++ encodeRR (wireOf r.labels) r.typ r.cls r.ttl w ++ rest).take
      (pre.length + (wireOf r.labels).length + 2 + 2 + 4 + 2 + w.length) =
      (pre ++ wireOf r.labels ++ beBytes 2 r.typ ++ beBytes 2 r.cls ++ beBytes 4 r.ttl ++ beBytes 2 w.length) ++ w := by
    have : pre ++ encodeRR (wireOf r.labels) r.typ r.cls r.ttl w ++ rest =
        ((pre ++ wireOf r.labels ++ beBytes 2 r.typ ++ beBytes 2 r.cls ++ beBytes 4 r.ttl ++ beBytes 2 w.length) ++ w) ++ rest := by
      simp [encodeRR, List.append_assoc]
    rw [this, List.take_left']
    simp [beBytes_len]; omega
  rw [ecut]
  have hb := hu (pre ++ wireOf r.labels ++ beBytes 2 r.typ ++ beBytes 2 r.cls ++ beBytes 4 r.ttl ++ beBytes 2 w.length)
  simp only [List.length_append, beBytes_len, List.nil_append] at hb
  rw [hb]
  simp only [h.values, and_true, ↓reduceIte, RRSpec.decoded, Option.some.injEq, Prod.mk.injEq, true_and]
  omega

/-! ### sections -/

/-- a record of the specification together with the body plan and RDATA octets that witness its well-formedness -/
structure RRItem where
  spec : RRSpec
  plan : List CStep
  rd : Bytes

def RRItem.enc (x : RRItem) : Bytes := encodeRR (wireOf x.spec.labels) x.spec.typ x.spec.cls x.spec.ttl x.rd
def RRItem.dec (x : RRItem) : RRm := x.spec.decoded x.rd.length

def encSection (xs : List RRItem) : Bytes := xs.flatMap RRItem.enc

theorem enc_pos (x : RRItem) : 0 < x.enc.length := by
  unfold RRItem.enc; rw [encodeRR_length]; omega

/-- **a section inside a message**: with the count equal to the number of records, exactly those records are read -/
theorem section_roundtrip (xs : List RRItem) (hwf : ∀ x ∈ xs, x.spec.WF x.plan x.rd) (pre rest : Bytes) (acc : List RRm) :
    unpackSection xs.length (pre ++ encSection xs ++ rest) pre.length acc =
      some (acc.reverse ++ xs.map RRItem.dec, pre.length + (encSection xs).length) := by
  induction xs generalizing pre acc with
  | nil => simp [unpackSection, encSection]
  | cons x xs ih =>
    have hx := hwf x (by simp)
    simp only [List.length_cons, unpackSection]
    have e : pre ++ encSection (x :: xs) ++ rest = pre ++ x.enc ++ (encSection xs ++ rest) := by
      simp [encSection, List.append_assoc]
    rw [e]
    have hr := rr_roundtrip x.spec x.plan x.rd hx pre (encSection xs ++ rest)
    unfold RRItem.enc at *
    rw [hr]
    simp only
    have hpos := enc_pos x
    unfold RRItem.enc at hpos
    have hne : ¬ pre.length + (encodeRR (wireOf x.spec.labels) x.spec.typ x.spec.cls x.spec.ttl x.rd).length = pre.length := by omega
    rw [if_neg hne]
    have := ih (fun y hy => hwf y (by simp [hy])) (pre ++ encodeRR (wireOf x.spec.labels) x.spec.typ x.spec.cls x.spec.ttl x.rd)
      (x.spec.decoded x.rd.length :: acc)
    simp only [List.length_append, List.append_assoc] at this
    simp only [List.append_assoc]
    rw [this]
    simp [encSection, RRItem.dec, RRItem.enc, List.append_assoc]
    omega

/-! ### questions -/

structure QSpec where
  labels : List Bytes
  typ : Nat
  cls : Nat

def QSpec.enc (q : QSpec) : Bytes := wireOf q.labels ++ (beBytes 2 q.typ ++ beBytes 2 q.cls)
def QSpec.dec (q : QSpec) : Qm := ⟨presentOf q.labels, q.typ, q.cls⟩
def QSpec.WF (q : QSpec) : Prop := WireNameOK q.labels ∧ q.typ < 65536 ∧ q.cls < 65536
def encQuestions (qs : List QSpec) : Bytes := qs.flatMap QSpec.enc

theorem question_roundtrip (q : QSpec) (h : q.WF) (pre rest : Bytes) :
    unpackQuestion (pre ++ q.enc ++ rest) pre.length = some (q.dec, pre.length + q.enc.length) := by
  obtain ⟨h1, h2, h3⟩ := h
  unfold unpackQuestion
  have e0 : pre ++ q.enc ++ rest = pre ++ wireOf q.labels ++ (beBytes 2 q.typ ++ beBytes 2 q.cls ++ rest) := by
    simp [QSpec.enc, List.append_assoc]
  have hn := unpackName_ctx q.labels pre (beBytes 2 q.typ ++ beBytes 2 q.cls ++ rest) h1
  rw [← e0] at hn
  rw [hn]
  simp only
  have hl : (pre ++ q.enc ++ rest).length = pre.length + (wireOf q.labels).length + 4 + rest.length := by
    simp [QSpec.enc, beBytes_len]; omega
  rw [if_neg (by rw [hl]; omega)]
  have e1 : pre ++ q.enc ++ rest = (pre ++ wireOf q.labels) ++ beBytes 2 q.typ ++ (beBytes 2 q.cls ++ rest) := by
    simp [QSpec.enc, List.append_assoc]
  have u1 := uintAt_ctx 2 q.typ (pre ++ wireOf q.labels) (beBytes 2 q.cls ++ rest) (by omega)
  rw [← e1, List.length_append] at u1
  rw [u1]
  simp only
  rw [if_neg (by rw [hl]; omega)]
  have e2 : pre ++ q.enc ++ rest = (pre ++ wireOf q.labels ++ beBytes 2 q.typ) ++ beBytes 2 q.cls ++ rest := by
    simp [QSpec.enc, List.append_assoc]
  have u2 := uintAt_ctx 2 q.cls (pre ++ wireOf q.labels ++ beBytes 2 q.typ) rest (by omega)
  rw [← e2] at u2
  simp only [List.length_append, beBytes_len] at u2
  rw [u2]
  simp [QSpec.dec, QSpec.enc, beBytes_len]
  omega

theorem questions_roundtrip (qs : List QSpec) (hwf : ∀ q ∈ qs, q.WF) (pre rest : Bytes) (acc : List Qm) :
    unpackQuestions qs.length (pre ++ encQuestions qs ++ rest) pre.length acc =
      (acc.reverse ++ qs.map QSpec.dec, pre.length + (encQuestions qs).length, false) := by
  induction qs generalizing pre acc with
  | nil => simp [unpackQuestions, encQuestions]
  | cons q qs ih =>
    simp only [List.length_cons, unpackQuestions]
    have e : pre ++ encQuestions (q :: qs) ++ rest = pre ++ q.enc ++ (encQuestions qs ++ rest) := by
      simp [encQuestions, List.append_assoc]
    rw [e, question_roundtrip q (hwf q (by simp)) pre (encQuestions qs ++ rest)]
    simp only
    have hpos : 0 < q.enc.length := by simp [QSpec.enc, beBytes_len]
    rw [if_neg (by omega)]
    have := ih (fun y hy => hwf y (by simp [hy])) (pre ++ q.enc) (q.dec :: acc)
    simp only [List.length_append, List.append_assoc] at this
    simp only [List.append_assoc]
    rw [this]
    simp [encQuestions, List.append_assoc]
    omega

/-! ### whole messages -/

/-- the plain encoding of a message: header with the true counts, questions, three sections -/
def encodeMsg (id bits : Nat) (qs : List QSpec) (an ns ex : List RRItem) : Bytes :=
  beBytes 2 id ++ (beBytes 2 bits ++ (beBytes 2 qs.length ++ (beBytes 2 an.length ++ (beBytes 2 ns.length ++
    (beBytes 2 ex.length ++ (encQuestions qs ++ (encSection an ++ (encSection ns ++ encSection ex))))))))

theorem word_at (pre rest : Bytes) (v : Nat) (hv : v < 65536) :
    beVal (((pre ++ beBytes 2 v ++ rest).drop pre.length).take 2) = v := by
  have := uintAt_ctx 2 v pre rest (by omega)
  unfold uintAt at this
  split at this
  · simp only [Option.some.injEq, Prod.mk.injEq] at this; exact this.1
  · cases this

theorem encSection_nil_iff (xs : List RRItem) : (encSection xs).length = 0 ↔ xs = [] := by
  cases xs with
  | nil => simp [encSection]
  | cons x xs =>
    have := enc_pos x
    simp [encSection]
    intro h
    rw [List.length_eq_zero_iff.mpr h] at this
    simp at this

theorem encQuestions_nil_iff (qs : List QSpec) : (encQuestions qs).length = 0 ↔ qs = [] := by
  cases qs with
  | nil => simp [encQuestions]
  | cons q qs => simp [encQuestions, QSpec.enc, beBytes_len]

/-- **whole-message round trip**: for every identifier and flag word, every list of questions and every three lists of
    records of any of the generated types with fitting field values, the decoder reads the plain encoding back as
    exactly those questions and records (names in the library's spelling), without error, the flags decoded and the
    extended RCODE taken from the last OPT record -/
theorem message_roundtrip (id bits : Nat) (qs : List QSpec) (an ns ex : List RRItem)
    (hid : id < 65536) (hbits : bits < 65536)
    (hq : ∀ q ∈ qs, q.WF) (han : ∀ x ∈ an, x.spec.WF x.plan x.rd) (hns : ∀ x ∈ ns, x.spec.WF x.plan x.rd)
    (hex : ∀ x ∈ ex, x.spec.WF x.plan x.rd)
    (cq : qs.length < 65536) (ca : an.length < 65536) (cn : ns.length < 65536) (ce : ex.length < 65536) :
    unpackMsg (encodeMsg id bits qs an ns ex) =
      some ⟨id, unpackBits (BitVec.ofNat 16 bits),
            joinRcode (unpackBits (BitVec.ofNat 16 bits)).rcode (extRcode (ex.map RRItem.dec)),
            qs.map QSpec.dec, an.map RRItem.dec, ns.map RRItem.dec, ex.map RRItem.dec, false⟩ := by
  -- the six words of the header
  have w0 : beVal ((encodeMsg id bits qs an ns ex).take 2) = id := by
    have := word_at [] (beBytes 2 bits ++ (beBytes 2 qs.length ++ (beBytes 2 an.length ++ (beBytes 2 ns.length ++
      (beBytes 2 ex.length ++ (encQuestions qs ++ (encSection an ++ (encSection ns ++ encSection ex)))))))) id hid
    simpa [encodeMsg] using this
  have w1 : beVal (((encodeMsg id bits qs an ns ex).drop 2).take 2) = bits := by
    have := word_at (beBytes 2 id) (beBytes 2 qs.length ++ (beBytes 2 an.length ++ (beBytes 2 ns.length ++
      (beBytes 2 ex.length ++ (encQuestions qs ++ (encSection an ++ (encSection ns ++ encSection ex))))))) bits hbits
    simpa [encodeMsg, beBytes_len, List.append_assoc] using this
  have w2 : beVal (((encodeMsg id bits qs an ns ex).drop 4).take 2) = qs.length := by
    have := word_at (beBytes 2 id ++ beBytes 2 bits) (beBytes 2 an.length ++ (beBytes 2 ns.length ++
      (beBytes 2 ex.length ++ (encQuestions qs ++ (encSection an ++ (encSection ns ++ encSection ex)))))) qs.length cq
    simpa [encodeMsg, beBytes_len, List.append_assoc] using this
  have w3 : beVal (((encodeMsg id bits qs an ns ex).drop 6).take 2) = an.length := by
    have := word_at (beBytes 2 id ++ beBytes 2 bits ++ beBytes 2 qs.length) (beBytes 2 ns.length ++
      (beBytes 2 ex.length ++ (encQuestions qs ++ (encSection an ++ (encSection ns ++ encSection ex))))) an.length ca
    simpa [encodeMsg, beBytes_len, List.append_assoc] using this
  have w4 : beVal (((encodeMsg id bits qs an ns ex).drop 8).take 2) = ns.length := by
    have := word_at (beBytes 2 id ++ beBytes 2 bits ++ beBytes 2 qs.length ++ beBytes 2 an.length)
      (beBytes 2 ex.length ++ (encQuestions qs ++ (encSection an ++ (encSection ns ++ encSection ex)))) ns.length cn
    simpa [encodeMsg, beBytes_len, List.append_assoc] using this
  have w5 : beVal (((encodeMsg id bits qs an ns ex).drop 10).take 2) = ex.length := by
    have := word_at (beBytes 2 id ++ beBytes 2 bits ++ beBytes 2 qs.length ++ beBytes 2 an.length ++ beBytes 2 ns.length)
      (encQuestions qs ++ (encSection an ++ (encSection ns ++ encSection ex))) ex.length ce
    simpa [encodeMsg, beBytes_len, List.append_assoc] using this
  have hlen : (encodeMsg id bits qs an ns ex).length =
      12 + ((encQuestions qs).length + ((encSection an).length + ((encSection ns).length + (encSection ex).length))) := by
    simp [encodeMsg, beBytes_len]; omega
  unfold unpackMsg
  rw [if_neg (by omega)]
  simp only [Nat.reduceMul, List.drop_zero, w0, w1, w2, w3, w4, w5]
  by_cases hempty : (encQuestions qs).length + ((encSection an).length + ((encSection ns).length + (encSection ex).length)) = 0
  · -- nothing behind the header
    have e1 := (encQuestions_nil_iff qs).mp (by omega)
    have e2 := (encSection_nil_iff an).mp (by omega)
    have e3 := (encSection_nil_iff ns).mp (by omega)
    have e4 := (encSection_nil_iff ex).mp (by omega)
    subst e1 e2 e3 e4
    rw [if_pos (by omega)]
    simp [extRcode, joinRcode]
  · rw [if_neg (by omega)]
    -- the header as a prefix
    have hH : (beBytes 2 id ++ (beBytes 2 bits ++ (beBytes 2 qs.length ++ (beBytes 2 an.length ++ (beBytes 2 ns.length ++
        beBytes 2 ex.length))))).length = 12 := by simp [beBytes_len]
    generalize hHd : beBytes 2 id ++ (beBytes 2 bits ++ (beBytes 2 qs.length ++ (beBytes 2 an.length ++ (beBytes 2 ns.length ++
        beBytes 2 ex.length)))) = H at hH
    have em : encodeMsg id bits qs an ns ex = H ++ encQuestions qs ++ (encSection an ++ (encSection ns ++ encSection ex)) := by
      rw [← hHd]; simp [encodeMsg, List.append_assoc]
    have q := questions_roundtrip qs hq H (encSection an ++ (encSection ns ++ encSection ex)) []
    rw [← em, hH] at q
    rw [q]
    simp only [List.reverse_nil, List.nil_append, Bool.false_eq_true, ↓reduceIte]
    have em2 : encodeMsg id bits qs an ns ex = (H ++ encQuestions qs) ++ encSection an ++ (encSection ns ++ encSection ex) := by
      rw [em]; simp [List.append_assoc]
    have a := section_roundtrip an han (H ++ encQuestions qs) (encSection ns ++ encSection ex) []
    rw [← em2, List.length_append, hH] at a
    rw [a]
    simp only [List.reverse_nil, List.nil_append]
    have em3 : encodeMsg id bits qs an ns ex = (H ++ encQuestions qs ++ encSection an) ++ encSection ns ++ encSection ex := by
      rw [em]; simp [List.append_assoc]
    have n := section_roundtrip ns hns (H ++ encQuestions qs ++ encSection an) (encSection ex) []
    rw [← em3] at n
    simp only [List.length_append, hH] at n
    rw [n]
    simp only [List.reverse_nil, List.nil_append]
    have em4 : encodeMsg id bits qs an ns ex = (H ++ encQuestions qs ++ encSection an ++ encSection ns) ++ encSection ex ++ [] := by
      rw [em]; simp [List.append_assoc]
    have x := section_roundtrip ex hex (H ++ encQuestions qs ++ encSection an ++ encSection ns) [] []
    rw [← em4] at x
    simp only [List.length_append, hH] at x
    rw [x]
    simp

/-! ### packing what was decoded -/

/-- option / parameter values that their own codecs reproduce octet for octet (C01Opt: every canonical value) -/
def Canonical (kind : String) (vals : List Val) : Prop := vals.mapM (recode kind) = some vals

theorem canonical_plain (kind : String) (vals : List Val) (h : kind ≠ "OPT" ∧ kind ≠ "SVCB" ∧ kind ≠ "HTTPS") :
    Canonical kind vals := by
  unfold Canonical
  induction vals with
  | nil => rfl
  | cons v vs ih =>
    have hv : recode kind v = some v := by
      cases v <;> simp [recode, recodeKV, h.1, h.2.1, h.2.2]
    simp only [List.mapM_cons, hv, ih]
    rfl

/-- the plain packer of the model gives back the encoding a decoded record came from -/
theorem repack_decoded (x : RRItem) (h : x.spec.WF x.plan x.rd) (hc : Canonical x.spec.kind x.spec.vals) :
    repackRR x.dec = some x.enc := by
  unfold repackRR RRItem.dec RRSpec.decoded
  simp only [pack_present x.spec.labels h.owner, h.plan]
  have : x.spec.vals.mapM (recode x.spec.kind) = some x.spec.vals := hc
  rw [this]
  simp only [Option.bind_some, h.packs, h.short, ↓reduceIte, RRItem.enc]

theorem concatAll_append (a b : List (Option Bytes)) (x y : Bytes) (ha : concatAll a = some x) (hb : concatAll b = some y) :
    concatAll (a ++ b) = some (x ++ y) := by
  induction a generalizing x with
  | nil => simp [concatAll] at ha; subst ha; simpa using hb
  | cons o a ih =>
    simp only [concatAll, List.cons_append] at ha ⊢
    cases o with
    | none => simp at ha
    | some u =>
      cases hr : concatAll a with
      | none => simp [hr] at ha
      | some r =>
        simp only [hr, Option.some.injEq] at ha
        subst ha
        rw [ih r hr]
        simp

theorem concatAll_records (xs : List RRItem) (hwf : ∀ x ∈ xs, x.spec.WF x.plan x.rd)
    (hc : ∀ x ∈ xs, Canonical x.spec.kind x.spec.vals) :
    concatAll ((xs.map RRItem.dec).map repackRR) = some (encSection xs) := by
  induction xs with
  | nil => rfl
  | cons x xs ih =>
    simp only [List.map_cons, concatAll, repack_decoded x (hwf x (by simp)) (hc x (by simp)),
      ih (fun y hy => hwf y (by simp [hy])) (fun y hy => hc y (by simp [hy]))]
    simp [encSection]

theorem concatAll_questions (qs : List QSpec) (hwf : ∀ q ∈ qs, q.WF) :
    concatAll ((qs.map QSpec.dec).map encodeQ) = some (encQuestions qs) := by
  induction qs with
  | nil => rfl
  | cons q qs ih =>
    have hq : encodeQ q.dec = some q.enc := by
      simp [encodeQ, QSpec.dec, QSpec.enc, pack_present q.labels (hwf q (by simp)).1]
    simp only [List.map_cons, concatAll, hq, ih (fun y hy => hwf y (by simp [hy]))]
    simp [encQuestions]

theorem join_mod (n : Nat) (t : Option Nat) (hn : n < 16) : joinRcode n t % 16 = n := by
  cases t with
  | none => simp [joinRcode]; omega
  | some t =>
    simp only [joinRcode]
    have : (16 : Nat) = 2 ^ 4 := rfl
    rw [this, Nat.or_mod_two_pow, Nat.shiftLeft_eq, Nat.mul_mod_left, Nat.or_zero, Nat.mod_eq_of_lt (by omega)]

theorem extRcode_lt (ex : List RRm) (t : Nat) (h : extRcode ex = some t) : t < 256 := by
  unfold extRcode at h
  split at h
  · simp at h; omega
  · cases h

theorem rcode_lt (w : BitVec 16) : (unpackBits w).rcode < 16 := by
  unfold unpackBits
  simp only
  have := BitVec.toNat_and w 0xF
  rw [this]
  exact Nat.lt_of_le_of_lt Nat.and_le_right (by decide)

/-- **pack after unpack**: the plain packer of the model, applied to what the decoder read from the plain encoding of
    a message, writes that encoding again — with `message_roundtrip`: encode → decode → encode is the identity, the
    flag word included -/
theorem pack_unpack_message (id bits : Nat) (qs : List QSpec) (an ns ex : List RRItem)
    (hbits : bits < 65536)
    (hq : ∀ q ∈ qs, q.WF) (han : ∀ x ∈ an, x.spec.WF x.plan x.rd) (hns : ∀ x ∈ ns, x.spec.WF x.plan x.rd)
    (hex : ∀ x ∈ ex, x.spec.WF x.plan x.rd)
    (can : ∀ x ∈ an, Canonical x.spec.kind x.spec.vals) (cns : ∀ x ∈ ns, Canonical x.spec.kind x.spec.vals)
    (cex : ∀ x ∈ ex, Canonical x.spec.kind x.spec.vals) :
    packMsgPlain ⟨id, unpackBits (BitVec.ofNat 16 bits),
        joinRcode (unpackBits (BitVec.ofNat 16 bits)).rcode (extRcode (ex.map RRItem.dec)),
        qs.map QSpec.dec, an.map RRItem.dec, ns.map RRItem.dec, ex.map RRItem.dec, false⟩ =
      some (encodeMsg id bits qs an ns ex) := by
  have hn := rcode_lt (BitVec.ofNat 16 bits)
  unfold packMsgPlain
  simp only
  -- the RCODE is within twelve bits, and extended only when an OPT record is there
  have h1 : ¬ joinRcode (unpackBits (BitVec.ofNat 16 bits)).rcode (extRcode (ex.map RRItem.dec)) > 0xFFF := by
    cases he : extRcode (ex.map RRItem.dec) with
    | none => simp [joinRcode]; omega
    | some t =>
      have ht := extRcode_lt _ t he
      simp only [joinRcode, gt_iff_lt, Nat.not_lt]
      have : (unpackBits (BitVec.ofNat 16 bits)).rcode ||| t <<< 4 < 2 ^ 12 :=
        Nat.or_lt_two_pow (by omega) (by rw [Nat.shiftLeft_eq]; omega)
      omega
  rw [if_neg h1]
  have h2 : ¬ (joinRcode (unpackBits (BitVec.ofNat 16 bits)).rcode (extRcode (ex.map RRItem.dec)) > 0xF ∧
      (extRcode (ex.map RRItem.dec)).isNone = true) := by
    intro ⟨a, b⟩
    cases he : extRcode (ex.map RRItem.dec) with
    | none => rw [he] at a; simp [joinRcode] at a; omega
    | some t => rw [he] at b; simp at b
  rw [if_neg h2]
  have hbody := concatAll_append _ _ _ _ (concatAll_questions qs hq)
    (concatAll_append _ _ _ _ (concatAll_records an han can)
      (concatAll_append _ _ _ _ (concatAll_records ns hns cns) (concatAll_records ex hex cex)))
  rw [hbody]
  have hw : (packBits { unpackBits (BitVec.ofNat 16 bits) with
      rcode := joinRcode (unpackBits (BitVec.ofNat 16 bits)).rcode (extRcode (ex.map RRItem.dec)) }).toNat = bits := by
    rw [C01H.packBits_rcode_mod, join_mod _ _ hn]
    have : ({ unpackBits (BitVec.ofNat 16 bits) with rcode := (unpackBits (BitVec.ofNat 16 bits)).rcode } : MsgHdr) =
        unpackBits (BitVec.ofNat 16 bits) := rfl
    rw [this, C01H.packBits_unpackBits]
    simp [BitVec.toNat_ofNat]; omega
  simp only [Option.map_some, hw, List.length_map, encodeMsg]

/-- the premises are satisfiable: an A record and an MX record (a name inside the RDATA) are well-formed items -/
example : (RRSpec.WF ⟨[[97]], 1, 1, 60, "A", [.b [192, 0, 2, 1]]⟩ [.a] [192, 0, 2, 1]) :=
  ⟨by decide, by decide, by decide, by decide, by decide, by decide, by decide, by simp [WFPlan, WFStep], by decide, by decide,
    by decide, by decide⟩

example : (RRSpec.WF ⟨[[97], [98]], 15, 1, 3600, "MX", [.n 10, .t (presentOf [[109], [97]])]⟩ [.uint 2, .early, .name]
    ([0, 10] ++ wireOf [[109], [97]])) :=
  ⟨by decide, by decide, by decide, by decide, by decide, by decide, by decide,
    by simp only [WFPlan, WFStep, and_true]; exact ⟨by decide, [[109], [97]], by decide, rfl⟩,
    by decide,
    by simp [packPlan, packPlanAcc, packStep, stripPlan, pack_present [[109], [97]] (by decide)]; decide,
    by decide, by decide⟩

end Dns.C01M
