/-
  C17 — key tags, NSEC3 hash iteration / match / cover, signature validity period.
-/
import DnsModel.Dnssec
namespace Dns.C17
open Dns

/-! ### key tag = RFC 4034 Appendix B -/

theorem keyTagSum_acc (i : Nat) (bs : Bytes) (acc : Nat) :
    keyTagSum i bs acc = acc + keyTagSum i bs 0 := by
  induction bs generalizing i acc with
  | nil => simp [keyTagSum]
  | cons v rest ih =>
    simp only [keyTagSum]
    split
    · rw [ih (i + 1) (acc + v.toNat), ih (i + 1) (0 + v.toNat)]; omega
    · rw [ih (i + 1) (acc + v.toNat * 256), ih (i + 1) (0 + v.toNat * 256)]; omega

theorem keyTagSum_even (i : Nat) (hi : i % 2 = 0) (bs : Bytes) : keyTagSum i bs 0 = rfcKeyTagAcc bs := by
  match bs with
  | [] => simp [keyTagSum, rfcKeyTagAcc]
  | [a] => simp [keyTagSum, rfcKeyTagAcc]; omega
  | a :: b :: rest =>
    have h1 : ¬ i % 2 = 1 := by omega
    have h2 : (i + 1) % 2 = 1 := by omega
    simp only [keyTagSum, h1, h2, ↓reduceIte, rfcKeyTagAcc]
    rw [keyTagSum_acc, keyTagSum_even (i + 1 + 1) (by omega) rest]
    omega

/-- **keytag_eq_rfc**: for every RDATA octet string, the key tag loop computes the RFC 4034 App. B value -/
theorem keytag_eq_rfc (rdata : Bytes) : keyTag rdata = rfcKeyTag rdata := by
  simp [keyTag, rfcKeyTag, keyTagSum_even 0 rfl rdata]

/-! ### NSEC3 hash iteration = RFC 5155 §5 -/

theorem loop_eq (H : Bytes → Bytes) (salt : Bytes) (k : Nat) (h : Bytes) :
    hashNameIter.loop H salt (k + 1) h = H (hashNameIter.loop H salt k h ++ salt) := by
  induction k generalizing h with
  | zero => simp [hashNameIter.loop]
  | succ k ih =>
    rw [hashNameIter.loop, ih]
    simp [hashNameIter.loop]

/-- **nsec3_eq_rfc**: for every hash function, name, salt and iteration count, the loop of HashName computes
    the iterated hash IH(salt, name, k) of RFC 5155 §5 -/
theorem hashName_eq_rfc (H : Bytes → Bytes) (name salt : Bytes) (k : Nat) :
    hashNameIter H name salt k = rfcIH H salt name k := by
  induction k with
  | zero => simp [hashNameIter, hashNameIter.loop, rfcIH]
  | succ k ih =>
    unfold hashNameIter at ih ⊢
    rw [loop_eq, ih, rfcIH]

/-! ### match / cover -/

/-- **cover_iff**: Cover holds exactly for names inside the zone whose hash lies strictly between the owner
    hash and the next hash in circular order (normal, wrapping and empty intervals) -/
theorem cover_iff (inZone : Bool) (o n x : Nat) :
    nsec3Cover inZone o n x = true ↔ (inZone = true ∧ strictlyBetweenCircular o n x) := by
  unfold nsec3Cover strictlyBetweenCircular
  cases inZone
  · simp
  · simp only [Bool.not_true, Bool.false_eq_true, ↓reduceIte, true_and]
    by_cases h1 : o = n
    · subst h1
      by_cases h2 : x = o
      · subst h2; simp
      · simp [h2]
    · have e : (o == n && x != o) = false := by simp [h1]
      simp only [e, Bool.false_eq_true, ↓reduceIte]
      by_cases h2 : o < n
      · have h3 : ¬ n < o := by omega
        have h4 : ¬ o > n := by omega
        simp only [h2, h3, h4, ↓reduceIte]
        by_cases h5 : x ≤ o
        · simp only [h5, ↓reduceIte, Bool.false_eq_true, false_iff]; omega
        · simp only [h5, ↓reduceIte, decide_eq_true_eq]; omega
      · have h3 : n < o := by omega
        have h4 : o > n := h3
        simp only [h2, h3, h4, ↓reduceIte]
        by_cases h5 : x > o
        · simp [h5]
        · have h6 : ¬ o < x := h5
          simp only [h5, h6, ↓reduceIte, decide_eq_true_eq, false_or]

/-- **match_iff** -/
theorem match_iff (inZone : Bool) (o x : Nat) :
    nsec3Match inZone o x = true ↔ (inZone = true ∧ x = o) := by
  unfold nsec3Match; cases inZone <;> simp; omega

/-- a name is never both matched and covered by the same record -/
theorem not_match_and_cover (inZone : Bool) (o n x : Nat) :
    ¬ (nsec3Match inZone o x = true ∧ nsec3Cover inZone o n x = true) := by
  rw [match_iff, cover_iff]
  rintro ⟨⟨_, rfl⟩, _, h⟩
  unfold strictlyBetweenCircular at h
  split at h
  · omega
  · split at h <;> omega

/-- the intervals of two records that follow each other in a chain (`o < n < m`) share no name -/
theorem adjacent_covers_disjoint (o n m x : Nat) (h1 : o < n) (h2 : n < m) :
    ¬ (nsec3Cover true o n x = true ∧ nsec3Cover true n m x = true) := by
  rw [cover_iff, cover_iff]
  rintro ⟨⟨_, ha⟩, _, hb⟩
  unfold strictlyBetweenCircular at ha hb
  simp only [h1, h2, ↓reduceIte] at ha hb
  omega

/-- **two_record_chain_partitions**: in a complete chain of two records (`o → n → o`) every hash is matched by one
    of them or covered by one of them, and by exactly one of the four -/
theorem two_record_chain_partitions (o n x : Nat) (h : o < n) :
    let m1 := nsec3Match true o x; let m2 := nsec3Match true n x
    let c1 := nsec3Cover true o n x; let c2 := nsec3Cover true n o x
    (m1 = true ∨ m2 = true ∨ c1 = true ∨ c2 = true)
    ∧ ¬ (m1 = true ∧ m2 = true) ∧ ¬ (m1 = true ∧ c1 = true) ∧ ¬ (m1 = true ∧ c2 = true)
    ∧ ¬ (m2 = true ∧ c1 = true) ∧ ¬ (m2 = true ∧ c2 = true) ∧ ¬ (c1 = true ∧ c2 = true) := by
  intro m1 m2 c1 c2
  have e1 : m1 = true ↔ x = o := by simp [m1, match_iff]
  have e2 : m2 = true ↔ x = n := by simp [m2, match_iff]
  have hno : ¬ n < o := by omega
  have e3 : c1 = true ↔ (o < x ∧ x < n) := by
    simp only [c1, cover_iff, strictlyBetweenCircular, h, ↓reduceIte, true_and]
  have e4 : c2 = true ↔ (n < x ∨ x < o) := by
    simp only [c2, cover_iff, strictlyBetweenCircular, hno, h, ↓reduceIte, true_and]
  rw [e1, e2, e3, e4]
  omega

/-- a chain of one record (`o → o`, a zone with one name) covers every hash but its own -/
theorem one_record_chain (o x : Nat) : nsec3Cover true o o x = true ↔ x ≠ o := by
  rw [cover_iff]; simp [strictlyBetweenCircular]

/-! ### complete chains of any length -/

/-- strictly ascending owner hashes -/
def Ascending : List Nat → Prop
  | [] => True
  | [_] => True
  | a :: b :: r => a < b ∧ Ascending (b :: r)

/-- the (owner hash, next hash) pairs of the chain over ascending hashes; the last record points back to `first` -/
def chainPairs (first : Nat) : List Nat → List (Nat × Nat)
  | [] => []
  | [a] => [(a, first)]
  | a :: b :: r => (a, b) :: chainPairs first (b :: r)

theorem chain_covers_above (first : Nat) (hs : List Nat) (a x : Nat) (hasc : Ascending (a :: hs)) (hf : first ≤ a)
    (hx : a < x) (hn : x ∉ hs) :
    ∃ p ∈ chainPairs first (a :: hs), nsec3Cover true p.1 p.2 x = true := by
  induction hs generalizing a with
  | nil =>
    refine ⟨(a, first), by simp [chainPairs], ?_⟩
    rw [cover_iff]; refine ⟨rfl, ?_⟩
    unfold strictlyBetweenCircular
    by_cases h1 : a < first
    · omega
    · by_cases h2 : first < a
      · simp only [h1, h2, ↓reduceIte]; omega
      · simp only [h1, h2, ↓reduceIte]; omega
  | cons b r ih =>
    obtain ⟨hab, hasc'⟩ := hasc
    have hxb : x ≠ b := fun e => hn (by simp [e])
    by_cases hlt : x < b
    · refine ⟨(a, b), by simp [chainPairs], ?_⟩
      rw [cover_iff]; refine ⟨rfl, ?_⟩
      unfold strictlyBetweenCircular
      simp only [hab, ↓reduceIte]; omega
    · obtain ⟨p, hp, hc⟩ := ih b hasc' (by omega) (by omega) (fun h => hn (List.mem_cons_of_mem _ h))
      exact ⟨p, by simp only [chainPairs]; exact List.mem_cons_of_mem _ hp, hc⟩

theorem chain_covers_below (first : Nat) (hs : List Nat) (a x : Nat) (hasc : Ascending (a :: hs)) (hf : first ≤ a)
    (hx : x < first) :
    ∃ p ∈ chainPairs first (a :: hs), nsec3Cover true p.1 p.2 x = true := by
  induction hs generalizing a with
  | nil =>
    refine ⟨(a, first), by simp [chainPairs], ?_⟩
    rw [cover_iff]; refine ⟨rfl, ?_⟩
    unfold strictlyBetweenCircular
    by_cases h1 : a < first
    · omega
    · by_cases h2 : first < a
      · simp only [h1, h2, ↓reduceIte]; omega
      · simp only [h1, h2, ↓reduceIte]; omega
  | cons b r ih =>
    obtain ⟨hab, hasc'⟩ := hasc
    obtain ⟨p, hp, hc⟩ := ih b hasc' (by omega)
    exact ⟨p, by simp only [chainPairs]; exact List.mem_cons_of_mem _ hp, hc⟩

/-- **chain_complete**: in a complete NSEC3 chain over any number of strictly ascending owner hashes, every hash that no
    record matches is covered by some record of the chain -/
theorem chain_complete (a : Nat) (hs : List Nat) (x : Nat) (hasc : Ascending (a :: hs)) (hn : x ∉ a :: hs) :
    ∃ p ∈ chainPairs a (a :: hs), nsec3Cover true p.1 p.2 x = true := by
  have hxa : x ≠ a := fun e => hn (by simp [e])
  by_cases h : x < a
  · exact chain_covers_below a hs a x hasc (Nat.le_refl _) h
  · exact chain_covers_above a hs a x hasc (Nat.le_refl _) (by omega) (fun h' => hn (List.mem_cons_of_mem _ h'))

theorem chain_cover_outside (first : Nat) (r : List Nat) (b x : Nat) (hasc : Ascending (b :: r)) (hf : first ≤ b)
    (q : Nat × Nat) (hq : q ∈ chainPairs first (b :: r)) (hc : nsec3Cover true q.1 q.2 x = true) :
    b < x ∨ x < first := by
  induction r generalizing b with
  | nil =>
    simp only [chainPairs, List.mem_singleton] at hq
    subst hq
    rw [cover_iff] at hc
    have h := hc.2
    unfold strictlyBetweenCircular at h
    by_cases h1 : b < first
    · omega
    · by_cases h2 : first < b
      · simp only [h1, h2, ↓reduceIte] at h; omega
      · simp only [h1, h2, ↓reduceIte] at h; omega
  | cons c r ih =>
    obtain ⟨hbc, hasc'⟩ := hasc
    simp only [chainPairs, List.mem_cons] at hq
    rcases hq with e | e
    · subst e
      rw [cover_iff] at hc
      have h := hc.2
      unfold strictlyBetweenCircular at h
      simp only [hbc, ↓reduceIte] at h; omega
    · have := ih c hasc' (by omega) e
      omega

/-- **chain_cover_unique**: … and by one record only -/
theorem chain_cover_unique (first : Nat) (hs : List Nat) (a x : Nat) (hasc : Ascending (a :: hs)) (hf : first ≤ a)
    (p q : Nat × Nat) (hp : p ∈ chainPairs first (a :: hs)) (hq : q ∈ chainPairs first (a :: hs))
    (hcp : nsec3Cover true p.1 p.2 x = true) (hcq : nsec3Cover true q.1 q.2 x = true) : p = q := by
  induction hs generalizing a with
  | nil =>
    simp only [chainPairs, List.mem_singleton] at hp hq
    rw [hp, hq]
  | cons b r ih =>
    obtain ⟨hab, hasc'⟩ := hasc
    have inner : ∀ u : Nat × Nat, u = (a, b) → nsec3Cover true u.1 u.2 x = true → a < x ∧ x < b := by
      intro u e hc
      subst e
      rw [cover_iff] at hc
      have h := hc.2
      unfold strictlyBetweenCircular at h
      simp only [hab, ↓reduceIte] at h; exact h
    simp only [chainPairs, List.mem_cons] at hp hq
    rcases hp with ep | ep <;> rcases hq with eq | eq
    · rw [ep, eq]
    · have h1 := inner p ep hcp
      have h2 := chain_cover_outside first r b x hasc' (by omega) q eq hcq
      omega
    · have h1 := inner q eq hcq
      have h2 := chain_cover_outside first r b x hasc' (by omega) p ep hcp
      omega
    · exact ih b hasc' (by omega) ep eq

example : Ascending [3, 7, 20] ∧ chainPairs 3 [3, 7, 20] = [(3, 7), (7, 20), (20, 3)] := by
  simp [Ascending, chainPairs]

/-! ### validity period -/

theorem tdiv_small (x : Int) (h1 : -year68 < x) (h2 : x < year68) : Int.tdiv x year68 = 0 := by
  unfold year68 at *
  rcases Int.lt_or_le x 0 with hneg | hpos
  · have : Int.tdiv x 2147483648 = -(Int.tdiv (-x) 2147483648) := by
      rw [Int.neg_tdiv]; simp
    rw [this, Int.tdiv_eq_zero_of_lt (by omega) (by omega)]; rfl
  · exact Int.tdiv_eq_zero_of_lt hpos h2

/-- **validity_iff**: for times within 68 years (2^31 s) of both inception and expiration, the period
    contains `t` exactly when inception ≤ t ≤ expiration -/
theorem validity_iff (inc exp t : Int)
    (h1 : -year68 < inc - t) (h2 : inc - t < year68) (h3 : -year68 < exp - t) (h4 : exp - t < year68) :
    validityPeriod inc exp t = true ↔ (inc ≤ t ∧ t ≤ exp) := by
  unfold validityPeriod
  simp [tdiv_small _ h1 h2, tdiv_small _ h3 h4]

example : validityPeriod 1000 2000 1500 = true := by decide
example : validityPeriod 1000 2000 2001 = false := by decide

end Dns.C17
